package engine

// F91 (C16): a subgraph response with `Cache-Control: public, max-age=60` and `Vary: Accept-Language` was stored and
// served to a request whose subgraph headers (Context.SubgraphHeadersBuilder) differ: request 2 (Accept-Language: en)
// received "review in de" from the cache. The cache key holds no request headers and the storability decision never
// looked at Vary.
// Drop into execution/engine/ and run
//   cd execution && go test ./engine -run TestF91 -count=1
// Fails before the fix, passes after.

import (
	"bytes"
	"encoding/json"
	"fmt"
	"hash/fnv"
	"io"
	"net/http"
	"net/http/httptest"
	"os"
	"strings"
	"testing"

	"github.com/jensneuse/abstractlogger"
	"github.com/stretchr/testify/require"
	"google.golang.org/protobuf/encoding/protojson"

	nodev1 "github.com/wundergraph/cosmo/router/gen/proto/wg/cosmo/node/v1"

	"github.com/wundergraph/graphql-go-tools/v2/pkg/engine/resolve"
)

type c16LanguageHeaders struct{ language string }

func (b c16LanguageHeaders) HeadersForSubgraph(string) (http.Header, uint64) {
	return http.Header{"Accept-Language": []string{b.language}}, b.HashAll()
}

func (b c16LanguageHeaders) HashAll() uint64 {
	h := fnv.New64a()
	_, _ = h.Write([]byte(b.language))
	return h.Sum64()
}

func withSubgraphLanguage(language string) ExecutionOptions {
	return func(execCtx *internalExecutionContext) {
		execCtx.resolveContext.SubgraphHeadersBuilder = c16LanguageHeaders{language: language}
	}
}

func newC16LanguageHarness(t *testing.T) *harness {
	t.Helper()

	h := &harness{users: newStub(t), products: newStub(t)}

	// reviews answers in the language it is asked for, and declares that it does
	reviews := httptest.NewServer(http.HandlerFunc(func(w http.ResponseWriter, r *http.Request) {
		body, _ := io.ReadAll(r.Body)
		var request struct {
			Variables struct {
				Representations []json.RawMessage `json:"representations"`
			} `json:"variables"`
		}
		_ = json.Unmarshal(body, &request)
		entities := make([]string, len(request.Variables.Representations))
		for i := range entities {
			entities[i] = fmt.Sprintf(`{"reviews":[{"body":"review in %s"}]}`, r.Header.Get("Accept-Language"))
		}
		w.Header().Set("Content-Type", "application/json")
		w.Header().Set("Cache-Control", "public, max-age=60")
		w.Header().Set("Vary", "Accept-Language")
		_, _ = w.Write([]byte(`{"data":{"_entities":[` + strings.Join(entities, ",") + `]}}`))
	}))
	t.Cleanup(reviews.Close)

	cfgData, err := os.ReadFile("testdata/config_factory_federation/config.json")
	require.NoError(t, err)
	cfgData = bytes.ReplaceAll(cfgData, []byte("http://user.service"), []byte(h.users.server.URL))
	cfgData = bytes.ReplaceAll(cfgData, []byte("http://product.service"), []byte(h.products.server.URL))
	cfgData = bytes.ReplaceAll(cfgData, []byte("http://review.service"), []byte(reviews.URL))

	var routerConfig nodev1.RouterConfig
	require.NoError(t, protojson.Unmarshal(cfgData, &routerConfig))

	ctx := t.Context()
	engineConfig, err := NewFederationEngineConfigFactory(ctx).BuildEngineConfiguration(&routerConfig)
	require.NoError(t, err)

	h.engine, err = NewExecutionEngine(ctx, abstractlogger.NoopLogger, engineConfig, resolve.ResolverOptions{MaxConcurrency: 1024})
	require.NoError(t, err)

	return h
}

func TestF91_SubgraphRequestHeadersAreNotPartOfTheCacheKey(t *testing.T) {
	history := []string{"de", "en"}

	run := func(withCache bool) []string {
		h := newC16LanguageHarness(t)
		h.users.answers(meAnswer)
		cache := newMapCache()

		responses := make([]string, len(history))
		for i, language := range history {
			options := []ExecutionOptions{withSubgraphLanguage(language)}
			if withCache {
				options = append(options, withResponseCache(t, cache))
			}
			responses[i] = h.execute(t, singleEntityQuery, options...)
		}
		return responses
	}

	uncached := run(false)
	cached := run(true)

	require.Contains(t, uncached[0], "review in de")
	require.Contains(t, uncached[1], "review in en")
	for i := range history {
		require.Equalf(t, uncached[i], cached[i],
			"request %d (Accept-Language: %s): the response with a cache differs from the response without one", i, history[i])
	}
}
