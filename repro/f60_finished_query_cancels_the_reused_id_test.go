package subscription

import (
	"bytes"
	"context"
	"sync"
	"testing"

	"github.com/jensneuse/abstractlogger"

	"github.com/wundergraph/graphql-go-tools/execution/graphql"
	"github.com/wundergraph/graphql-go-tools/v2/pkg/ast"
	"github.com/wundergraph/graphql-go-tools/v2/pkg/engine/resolve"
)

// F60 (C19-R14). A query's id is released before its terminal message is written (F41), so a client may re-use the id as
// soon as it has that message. The goroutine of the finished query released the id a second time on its way out — which
// cancelled the operation that had just been started under the re-used id.

type f60Executor struct{ opType ast.OperationType }

func (e *f60Executor) Execute(w resolve.SubscriptionResponseWriter) error {
	_, _ = w.Write([]byte(`{"data":{}}`))
	return nil
}
func (e *f60Executor) OperationType() ast.OperationType { return e.opType }
func (e *f60Executor) SetContext(context.Context)       {}
func (e *f60Executor) Reset()                           {}

type f60Pool struct{}

func (f60Pool) Get([]byte) (Executor, error) { return &f60Executor{opType: ast.OperationTypeQuery}, nil }
func (f60Pool) Put(Executor) error           { return nil }

type f60Handler func(eventType EventType, id string, data []byte, err error)

func (f f60Handler) Emit(eventType EventType, id string, data []byte, err error) {
	f(eventType, id, data, err)
}

func TestF60ReusedIdSurvivesTheFinishedQuerysCleanup(t *testing.T) {
	engine := &ExecutorEngine{
		logger:       abstractlogger.Noop{},
		executorPool: f60Pool{},
		bufferPool: &sync.Pool{New: func() any {
			writer := graphql.NewEngineResultWriterFromBuffer(bytes.NewBuffer(make([]byte, 0, 1024)))
			return &writer
		}},
	}
	parent := context.Background()
	first, err := engine.subCancellations.AddWithParent("1", parent)
	if err != nil {
		t.Fatal(err)
	}
	var second context.Context
	handler := f60Handler(func(eventType EventType, id string, _ []byte, _ error) {
		if eventType != EventTypeOnNonSubscriptionExecutionResult {
			return
		}
		// the client has the result of operation "1" and re-uses the id at once
		var addErr error
		second, addErr = engine.subCancellations.AddWithParent(id, parent)
		if addErr != nil {
			t.Fatalf("the id is not free when the terminal message is written: %v", addErr)
		}
	})
	engine.handleNonSubscriptionOperation(first, "1", &f60Executor{opType: ast.OperationTypeQuery}, handler)
	if second == nil {
		t.Fatal("terminal event not emitted")
	}
	if second.Err() != nil {
		t.Fatalf("the operation started under the re-used id was cancelled by the finished query's clean-up: %v", second.Err())
	}
	if engine.subCancellations.Len() != 1 {
		t.Fatalf("the re-used id is no longer registered (len=%d)", engine.subCancellations.Len())
	}
}
