package client_test

// existing_1 (C18, unmodified tree): an upstream WebSocket connection is leaked for ever when the
// only subscriber's context ends after the dial + protocol init completed but before the
// subscription is registered on the connection.
//
// Drop into: v2/pkg/engine/datasource/graphql_datasource/subscriptionclient/
// Run:       cd v2 && go test -count=1 -run TestC18Existing1 -v ./pkg/engine/datasource/graphql_datasource/subscriptionclient/

import (
	"context"
	"errors"
	"fmt"
	"net/http"
	"net/http/httptest"
	"strings"
	"sync/atomic"
	"testing"
	"time"

	"github.com/coder/websocket"
	"github.com/coder/websocket/wsjson"
	"github.com/jensneuse/abstractlogger"

	client "github.com/wundergraph/graphql-go-tools/v2/pkg/engine/datasource/graphql_datasource/subscriptionclient"
)

func c18e1Server(t *testing.T, open *atomic.Int32) *httptest.Server {
	srv := httptest.NewServer(http.HandlerFunc(func(w http.ResponseWriter, r *http.Request) {
		c, err := websocket.Accept(w, r, &websocket.AcceptOptions{Subprotocols: []string{"graphql-transport-ws"}})
		if err != nil {
			return
		}
		open.Add(1)
		defer open.Add(-1)
		defer c.Close(websocket.StatusNormalClosure, "")
		ctx := r.Context()
		for {
			var m map[string]any
			if err := wsjson.Read(ctx, c, &m); err != nil {
				return
			}
			if m["type"] == "connection_init" {
				_ = wsjson.Write(ctx, c, map[string]string{"type": "connection_ack"})
			}
		}
	}))
	t.Cleanup(srv.Close)
	return srv
}

// c18e1Logger is a Config.Logger that runs a callback on the transport's
// `wsTransport.dial ... status=connected` debug line, i.e. right after the protocol init succeeded.
type c18e1Logger struct {
	abstractlogger.Noop
	onConnected func()
}

func (l *c18e1Logger) Debug(msg string, fields ...abstractlogger.Field) {
	if msg == "wsTransport.dial" && strings.Contains(fmt.Sprintf("%+v", fields), "connected") {
		l.onConnected()
	}
}

// Deterministic: the subscriber's context is cancelled exactly between init and registration.
func TestC18Existing1_ConnectionLeaksWhenSubscriberLeavesRightAfterInit(t *testing.T) {
	var open atomic.Int32
	srv := c18e1Server(t, &open)

	ctxA, cancelA := context.WithCancel(context.Background())
	defer cancelA()

	cl := client.New(t.Context(), client.Config{Logger: &c18e1Logger{onConnected: cancelA}})
	opts := client.Options{Endpoint: srv.URL, Transport: client.TransportWS}

	cancel, err := cl.Subscribe(ctxA, &client.Request{Query: "subscription { a }"}, opts, func(*client.Message) {})
	if !errors.Is(err, context.Canceled) {
		if cancel != nil {
			cancel()
		}
		t.Fatalf("setup: expected Subscribe to report the cancellation, got %v", err)
	}

	// No subscription exists and none ever existed. Idle timeout is 0 ("close immediately").
	deadline := time.Now().Add(2 * time.Second)
	for time.Now().Before(deadline) {
		if cl.Stats().WSConns == 0 && open.Load() == 0 {
			return
		}
		time.Sleep(20 * time.Millisecond)
	}
	t.Fatalf("leak: 2s after the only subscriber left, Stats()=%+v and the upstream still has %d open connection(s)",
		cl.Stats(), open.Load())
}

// Hook-free, probabilistic variant (no logger): the subscriber is cancelled by a plain timer at
// about the time the handshake finishes. A handful of the attempts hit the window.
func TestC18Existing1_ConnectionLeak_Stress(t *testing.T) {
	var open atomic.Int32
	srv := c18e1Server(t, &open)
	opts := client.Options{Endpoint: srv.URL, Transport: client.TransportWS}

	const attempts = 600
	leaks := 0
	for i := 0; i < attempts; i++ {
		ctxA, cancelA := context.WithCancel(context.Background())
		cl := client.New(t.Context(), client.Config{})
		go func() {
			time.Sleep(time.Duration(100+(i%200)*5) * time.Microsecond)
			cancelA()
		}()
		cancel, err := cl.Subscribe(ctxA, &client.Request{Query: "subscription { a }"}, opts, func(*client.Message) {})
		if err == nil {
			cancel()
		}
		cancelA()
		time.Sleep(15 * time.Millisecond)
		if cl.Stats().WSConns != 0 {
			leaks++
		}
	}
	if leaks > 0 {
		t.Fatalf("%d of %d cancelled Subscribe calls left a connection behind (upstream still has %d open)", leaks, attempts, open.Load())
	}
}
