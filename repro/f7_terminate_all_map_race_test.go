package subscription

// Reproduction of finding F7 (C19-R4): ExecutorEngine.TerminateAllSubscriptions ranges over
// subCancellations.cancellations WITHOUT subscriptionCancellations.mu while the goroutines of
// handleNonSubscriptionOperation call Cancel(id) (locks, deletes) from their defer: an unsynchronised
// map iteration concurrent with map writes — `fatal error: concurrent map iteration and map write`
// (takes the whole process down) when a client disconnects while queries sent over the socket finish.
// Drop into execution/subscription and run:  go test -race -run TestVerifF7 -count=1 .
// Fails (DATA RACE / fatal error) on the pinned tree, passes with the "fix:" commit.

import (
	"bytes"
	"context"
	"sync"
	"testing"
	"time"

	"github.com/jensneuse/abstractlogger"

	"github.com/wundergraph/graphql-go-tools/execution/graphql"
	"github.com/wundergraph/graphql-go-tools/v2/pkg/ast"
	"github.com/wundergraph/graphql-go-tools/v2/pkg/engine/resolve"
)

type f7Executor struct{}

func (f7Executor) Execute(w resolve.SubscriptionResponseWriter) error {
	time.Sleep(time.Duration(50+time.Now().UnixNano()%200) * time.Microsecond)
	_, _ = w.Write([]byte(`{"data":{}}`))
	return nil
}
func (f7Executor) OperationType() ast.OperationType { return ast.OperationTypeQuery }
func (f7Executor) SetContext(context.Context)       {}
func (f7Executor) Reset()                           {}

type f7Pool struct{}

func (f7Pool) Get([]byte) (Executor, error) { return f7Executor{}, nil }
func (f7Pool) Put(Executor) error           { return nil }

type f7Events struct{}

func (f7Events) Emit(EventType, string, []byte, error) {}

func TestVerifF7TerminateAllRacesWithFinishingQueries(t *testing.T) {
	engine := ExecutorEngine{
		logger:       abstractlogger.Noop{},
		executorPool: f7Pool{},
		bufferPool: &sync.Pool{New: func() interface{} {
			w := graphql.NewEngineResultWriterFromBuffer(bytes.NewBuffer(make([]byte, 0, 64)))
			return &w
		}},
		subscriptionUpdateInterval: time.Millisecond,
	}
	for round := 0; round < 200; round++ {
		for i := 0; i < 64; i++ {
			id := string(rune('a'+round%26)) + "-" + string(rune('A'+i%26)) + string(rune('0'+i/26))
			if err := engine.StartOperation(context.Background(), id, nil, f7Events{}); err != nil {
				t.Fatal(err)
			}
		}
		// the client disconnects while the queries are finishing
		_ = engine.TerminateAllSubscriptions(f7Events{})
		for engine.subCancellations.Len() > 0 {
			time.Sleep(100 * time.Microsecond)
		}
	}
}
