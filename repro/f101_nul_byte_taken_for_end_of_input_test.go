package astprinter

// F101 (C05): a NUL byte in the input was taken for the lexer's EOF sentinel (runes.EOF == 0): strings and comments ended at
// it, and between tokens lexing stopped there, so everything after the NUL was silently dropped:
//   {a}<NUL> this is ) not { graphql      was accepted and printed as {a}
//   {a(b:"x<NUL>,c:1)}                    was accepted (string "x<NUL>", then , c:1) and printed text that does not re-parse
// While repairing it: Lexer.Read fell through to keyword.IDENT for EVERY byte that starts no other token, so `{a % b}`,
// `{ % }`, `query % { a }`, `{a(%: 1)}` were accepted (a field, an operation, an argument called `%`) and `{a ä b}` was
// accepted with two fields called 0xc3 and 0xa4. Such bytes are UNDEFINED tokens now and the parser rejects them.
// Now an accepted input with a NUL byte (only possible inside a string or comment) prints to text that re-parses to the same
// print, and input with a NUL byte between tokens is rejected.
// (After a round-3 seeding sub-agent's existing_5; its test required the second input to be accepted.)
// Drop into v2/pkg/astprinter/ and run
//   cd v2 && go test ./pkg/astprinter -run TestF101 -count=1 -v
// Fails before the fix, passes after.

import (
	"fmt"
	"testing"

	"github.com/wundergraph/graphql-go-tools/v2/pkg/ast"
	"github.com/wundergraph/graphql-go-tools/v2/pkg/astparser"
	"github.com/wundergraph/graphql-go-tools/v2/pkg/operationreport"
)

func f101Parse(in string) (doc *ast.Document, err error) {
	defer func() {
		if r := recover(); r != nil {
			err = fmt.Errorf("PANIC: %v", r)
		}
	}()
	d := ast.NewSmallDocument()
	d.Input.ResetInputString(in)
	rep := operationreport.Report{}
	astparser.NewParser().Parse(d, &rep)
	if rep.HasErrors() {
		return nil, fmt.Errorf("parse error: %s", rep.Error())
	}
	return d, nil
}

func TestF101_NulByteIsNotTheEndOfTheInput(t *testing.T) {
	for _, in := range []string{
		"{a}\x00 this is ) not { graphql",
		"{a \x00 b}",
		"{a(b:\"x\x00,c:1)}",
		"\"\x00type A",
	} {
		d, err := f101Parse(in)
		if err != nil {
			continue // rejected: fine
		}
		// accepted: then nothing may have been dropped silently, and the print has to re-parse to the same print
		p1, err := PrintString(d)
		if err != nil {
			t.Fatalf("print: %v", err)
		}
		d2, err := f101Parse(p1)
		if err != nil {
			t.Errorf("accepted input %q prints as %q which does not re-parse: %v", in, p1, err)
			continue
		}
		p2, _ := PrintString(d2)
		if p1 != p2 {
			t.Errorf("printing is not a fixed point: input %q print1 %q print2 %q", in, p1, p2)
		}
		if in == "{a}\x00 this is ) not { graphql" || in == "{a \x00 b}" {
			t.Errorf("input %q with a NUL byte between tokens was accepted (printed as %q): what follows the NUL is ignored", in, p1)
		}
	}
	// a byte that starts no token is not an identifier
	for _, in := range []string{"{a % b}", "{ % }", "query % { a }", "{a(%: 1)}", "{a \x01 b}", "{a ~ b}", "{a ä b}", "enum E { % }"} {
		if d, err := f101Parse(in); err == nil {
			p1, _ := PrintString(d)
			t.Errorf("input %q was accepted (printed as %q): a name that is no Name", in, p1)
		}
	}
	// ... but strings and comments may contain anything
	if _, err := f101Parse("{a(b: \"ä%~\")} # ä%~"); err != nil {
		t.Errorf("non-ASCII content of a string / comment: %v", err)
	}
	// a NUL byte inside a terminated string stays content of that string
	d, err := f101Parse("{a(b:\"x\x00y\")}")
	if err != nil {
		t.Fatalf("a NUL byte inside a string literal: %v", err)
	}
	p1, _ := PrintString(d)
	d2, err := f101Parse(p1)
	if err != nil {
		t.Fatalf("print %q does not re-parse: %v", p1, err)
	}
	if p2, _ := PrintString(d2); p1 != p2 {
		t.Fatalf("not a fixed point: %q vs %q", p1, p2)
	}
}
