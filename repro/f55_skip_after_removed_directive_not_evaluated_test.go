package astnormalization

// existing_3 (C03): with three or more directives on a node, the @skip/@include that
// directly follows an evaluated-and-removed @skip/@include is never evaluated.
// The result is not a fixed point of normalization (norm(norm(q)) != norm(q)) and still
// carries a statically decidable @skip/@include that no later stage of the engine evaluates.
//
// Goes into v2/pkg/astnormalization/ ; run:
//   cd v2 && go test ./pkg/astnormalization/ -run TestC03Existing3 -count=1 -v

import (
	"testing"

	"github.com/wundergraph/graphql-go-tools/v2/pkg/astprinter"
	"github.com/wundergraph/graphql-go-tools/v2/pkg/astvalidation"
	"github.com/wundergraph/graphql-go-tools/v2/pkg/internal/unsafeparser"
	"github.com/wundergraph/graphql-go-tools/v2/pkg/operationreport"
)

const c03e3Schema = `
directive @audit on FIELD
type Query { a: String b: String }
`

func c03e3Normalize(t *testing.T, operation, variables string) (string, string) {
	t.Helper()
	def := unsafeparser.ParseGraphqlDocumentStringWithBaseSchema(c03e3Schema)
	doc := unsafeparser.ParseGraphqlDocumentString(operation)
	doc.Input.Variables = []byte(variables)
	rep := operationreport.Report{}
	astvalidation.DefaultOperationValidator().Validate(&doc, &def, &rep)
	if rep.HasErrors() {
		t.Fatalf("input operation invalid: %s", rep.Error())
	}
	NewWithOpts(
		WithExtractVariables(),
		WithRemoveFragmentDefinitions(),
		WithRemoveUnusedVariables(),
		WithInlineFragmentSpreads(),
		WithRemoveNotMatchingOperationDefinitions(),
	).NormalizeNamedOperation(&doc, &def, []byte("Q"), &rep)
	if rep.HasErrors() {
		t.Fatalf("normalization failed: %s", rep.Error())
	}
	out, _ := astprinter.PrintString(&doc)
	return out, string(doc.Input.Variables)
}

func TestC03Existing3_SkipIncludeAfterRemovedDirectiveNotEvaluated(t *testing.T) {
	cases := []struct {
		name, operation, variables, want string
	}{
		{
			name:      "control: two directives",
			operation: `query Q { a @include(if: true) @skip(if: true) b }`,
			variables: `{}`,
			want:      `query Q {b}`,
		},
		{
			name:      "control: custom directive first",
			operation: `query Q { a @audit @include(if: true) @skip(if: true) b }`,
			variables: `{}`,
			want:      `query Q {b}`,
		},
		{
			name:      "include(true) skip(true) custom: field must be removed",
			operation: `query Q { a @include(if: true) @skip(if: true) @audit b }`,
			variables: `{}`,
			want:      `query Q {b}`,
		},
		{
			name:      "skip(false) include(false) custom: field must be removed",
			operation: `query Q { a @skip(if: false) @include(if: false) @audit b }`,
			variables: `{}`,
			want:      `query Q {b}`,
		},
		{
			name:      "same with variables",
			operation: `query Q($show: Boolean!, $hide: Boolean!) { a @include(if: $show) @skip(if: $hide) @audit b }`,
			variables: `{"show":true,"hide":true}`,
			want:      `query Q {b}`,
		},
	}
	for _, tc := range cases {
		t.Run(tc.name, func(t *testing.T) {
			once, vars := c03e3Normalize(t, tc.operation, tc.variables)
			if once != tc.want {
				t.Errorf("norm(q):\n got: %s\nwant: %s", once, tc.want)
			}
			twice, _ := c03e3Normalize(t, once, vars)
			if twice != once {
				t.Errorf("normalization is not idempotent:\n norm(q):       %s\n norm(norm(q)): %s", once, twice)
			}
		})
	}
}
