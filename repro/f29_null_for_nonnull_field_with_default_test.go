package variablesvalidation

// existing_2 (C06): traverseFieldDefinitionType treats "null / missing AND the input field
// declares a default value" as valid. Only a MISSING field may fall back to the default
// (GraphQL spec 3.10 Input Objects, input coercion: an explicit null for a Non-Null field is an
// error, default or not). Worse, the same inputFieldRef is passed down to the list items, so a
// null ITEM of a non-null item type is accepted as well whenever the field has a default.
// Normalization does not repair these values (inject_input_default_values only fills absent
// fields), so {"n":null} / {"tags":[null]} are forwarded to the subgraph.
//
// Goes into v2/pkg/variablesvalidation/ ; run:
//   cd v2 && go test -count=1 -run TestC06Existing2 ./pkg/variablesvalidation/

import (
	"testing"

	"github.com/stretchr/testify/assert"
	"github.com/stretchr/testify/require"
)

func TestC06Existing2_NullForNonNullFieldWithDefault(t *testing.T) {
	schema := `
		type Query { hello(arg: In): String }
		input In {
			n: Int! = 1
			tags: [String!]! = []
			matrix: [[Int!]!] = [[1]]
			noDefaultTags: [String!]
		}`
	operation := `query Q($in: In) { hello(arg: $in) }`

	// controls
	require.NoError(t, runTest(t, testCase{schema: schema, operation: operation, variables: `{"in":{}}`, withNormalization: true}))
	require.Error(t, runTest(t, testCase{schema: schema, operation: operation, variables: `{"in":{"noDefaultTags":[null]}}`, withNormalization: true}))

	for _, variables := range []string{
		`{"in":{"n":null}}`,              // explicit null for Int! (default does not apply to null)
		`{"in":{"tags":null}}`,           // explicit null for [String!]!
		`{"in":{"tags":[null]}}`,         // null item for String!
		`{"in":{"tags":["a",null]}}`,     //
		`{"in":{"matrix":[null]}}`,       // null item for [Int!]!
		`{"in":{"matrix":[[1,null]]}}`,   // null item for Int!
	} {
		t.Run(variables, func(t *testing.T) {
			for _, withNormalization := range []bool{false, true} {
				err := runTest(t, testCase{schema: schema, operation: operation, variables: variables, withNormalization: withNormalization})
				assert.Error(t, err, "not coercible, but accepted (withNormalization=%v)", withNormalization)
			}
		})
	}
}
