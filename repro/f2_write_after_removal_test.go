package resolve

// Reproduction of finding F2 (C12-R1): subscriptionState.complete()/error() write to the client
// writer after the subscription was removed and its completed channel closed.
// Drop into v2/pkg/engine/resolve and run: go test -run TestVerifF2 -count=1 .
// Fails on the pinned tree (bfa0067), passes with the "fix:" commit.

import (
	"context"
	"sync"
	"sync/atomic"
	"testing"
)

type f2Writer struct {
	completed chan struct{}
	late      *atomic.Int64
}

func (w *f2Writer) Write(p []byte) (int, error) { return len(p), nil }
func (w *f2Writer) Flush() error                { return nil }
func (w *f2Writer) Heartbeat() error            { return nil }
func (w *f2Writer) check() {
	select {
	case <-w.completed:
		w.late.Add(1) // written to after completion was signalled
	default:
	}
}
func (w *f2Writer) Complete()         { w.check() }
func (w *f2Writer) Error(data []byte) { w.check() }

func TestVerifF2WriteAfterRemoval(t *testing.T) {
	ctx, cancel := context.WithCancel(context.Background())
	defer cancel()
	r := newResolver(ctx)
	var late atomic.Int64
	const subsPerRound = 32
	for round := 0; round < 3000 && late.Load() == 0; round++ {
		trig := &trigger{id: 1, subscriptions: map[SubscriptionIdentifier]*subscriptionState{}, cancel: func() {}}
		ids := make([]SubscriptionIdentifier, 0, subsPerRound)
		r.mu.Lock()
		r.triggers[1] = trig
		for i := 0; i < subsPerRound; i++ {
			id := SubscriptionIdentifier{ConnectionID: ConnectionID(i + 1), SubscriptionID: int64(i)}
			ch := make(chan struct{})
			s := &subscriptionState{triggerID: 1, id: id, completed: ch, writer: &f2Writer{completed: ch, late: &late}, ctx: NewContext(ctx)}
			r.registerSubscriptionLocked(trig, s)
			ids = append(ids, id)
		}
		r.mu.Unlock()
		var wg sync.WaitGroup
		wg.Add(3)
		go func() { defer wg.Done(); r.handleTriggerComplete(1) }()
		go func() { defer wg.Done(); r.handleTriggerError(1, []byte(`{}`)) }()
		go func() {
			defer wg.Done()
			for _, id := range ids {
				_ = r.UnsubscribeSubscription(id)
			}
		}()
		wg.Wait()
	}
	if n := late.Load(); n != 0 {
		t.Fatalf("writer.Complete/Error called %d time(s) after the subscription was removed and its completed channel closed", n)
	}
}
