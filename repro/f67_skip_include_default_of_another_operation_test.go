// F67 (C03-R13), reported as existing_2 by a seeding sub-agent (its panic variant was repaired earlier as F51).
// Copy into v2/pkg/astnormalization/ and run: cd v2 && go test ./pkg/astnormalization/ -run TestF67 -count=1 -v
package astnormalization

// existing_2 (C03): @skip/@include evaluation reads the default value of a variable
// from ANOTHER operation of the same document (and can panic).
//
// Goes into v2/pkg/astnormalization/ ; run:
//   cd v2 && go test ./pkg/astnormalization/ -run TestF67 -count=1 -v

import (
	"fmt"
	"testing"

	"github.com/wundergraph/graphql-go-tools/v2/pkg/astprinter"
	"github.com/wundergraph/graphql-go-tools/v2/pkg/astvalidation"
	"github.com/wundergraph/graphql-go-tools/v2/pkg/internal/unsafeparser"
	"github.com/wundergraph/graphql-go-tools/v2/pkg/operationreport"
)

const c03e2Schema = `type Query { a: String b: String echo(s: String): String }`

func c03e2Normalize(t *testing.T, operation, operationName, variables string) (out string, err error) {
	t.Helper()
	defer func() {
		if r := recover(); r != nil {
			err = fmt.Errorf("normalization panicked: %v", r)
		}
	}()
	def := unsafeparser.ParseGraphqlDocumentStringWithBaseSchema(c03e2Schema)
	doc := unsafeparser.ParseGraphqlDocumentString(operation)
	doc.Input.Variables = []byte(variables)
	rep := operationreport.Report{}
	astvalidation.DefaultOperationValidator().Validate(&doc, &def, &rep)
	if rep.HasErrors() {
		t.Fatalf("input document invalid: %s", rep.Error())
	}
	NewWithOpts(
		WithExtractVariables(),
		WithRemoveFragmentDefinitions(),
		WithRemoveUnusedVariables(),
		WithInlineFragmentSpreads(),
		WithRemoveNotMatchingOperationDefinitions(),
	).NormalizeNamedOperation(&doc, &def, []byte(operationName), &rep)
	if rep.HasErrors() {
		return "", fmt.Errorf("normalization failed: %s", rep.Error())
	}
	out, _ = astprinter.PrintString(&doc)
	return out, nil
}

func TestF67SkipIncludeUsesTheDefaultOfItsOwnOperation(t *testing.T) {
	t.Run("control: single operation", func(t *testing.T) {
		out, err := c03e2Normalize(t, `query B($hide: Boolean! = false) { a @skip(if: $hide) b }`, "B", `{}`)
		if err != nil || out != `query B {a b}` {
			t.Errorf("got %q, %v", out, err)
		}
	})

	t.Run("other operation declares the same variable name with another default", func(t *testing.T) {
		doc := `
			query A($hide: Boolean! = true)  { a @skip(if: $hide) b }
			query B($hide: Boolean! = false) { a @skip(if: $hide) b }`
		out, err := c03e2Normalize(t, doc, "B", `{}`)
		if err != nil {
			t.Fatal(err)
		}
		// B's own default is false => nothing is skipped
		if out != `query B {a b}` {
			t.Errorf("operation B was normalized with the default of operation A:\n got: %s\nwant: %s", out, `query B {a b}`)
		}
	})

	t.Run("other operation declares the same variable name with a non boolean default", func(t *testing.T) {
		doc := `
			query A($p: String = "p", $q: String = "q", $hide: String = "x") { echo(s: $p) e2: echo(s: $q) e3: echo(s: $hide) }
			query B($hide: Boolean! = false) { a @skip(if: $hide) b }`
		out, err := c03e2Normalize(t, doc, "B", `{}`)
		if err != nil {
			t.Fatal(err) // index out of range [2] with length 2 in ast.Document.BooleanValue
		}
		if out != `query B {a b}` {
			t.Errorf("got: %s want: %s", out, `query B {a b}`)
		}
	})
}
