package astvalidation_test

// F103 (C04): types and directives live in different namespaces, but the parser registers directive definitions in the
// name index under their bare name and the lookups returned whatever node came first:
//   directive @Role on FIELD  type Role { a: String }  type Query { role: Role }
//   { role { a } }            -> Invalid, internal: "field: a selection on type: Role unhandled"   (the directive node was found)
//   type Role {…} directive @Role on FIELD …   { role @Role { a } }  -> "directive undefined"      (the type node was found)
// Both operations are valid. Found by probing after F99 (same root cause in the introspection generator).
// Drop into v2/pkg/astvalidation/ and run
//   cd v2 && go test ./pkg/astvalidation -run TestF103 -count=1 -v
// Fails before the fix, passes after.

import (
	"testing"

	"github.com/wundergraph/graphql-go-tools/v2/pkg/astnormalization"
	"github.com/wundergraph/graphql-go-tools/v2/pkg/astparser"
	"github.com/wundergraph/graphql-go-tools/v2/pkg/asttransform"
	"github.com/wundergraph/graphql-go-tools/v2/pkg/astvalidation"
	"github.com/wundergraph/graphql-go-tools/v2/pkg/operationreport"
)

func TestF103_DirectiveAndTypeMayShareAName(t *testing.T) {
	for _, schema := range []string{
		"type Role { a: String } directive @Role on FIELD type Query { role: Role }",
		"directive @Role on FIELD type Role { a: String } type Query { role: Role }",
	} {
		def, rep := astparser.ParseGraphqlDocumentString(schema)
		if rep.HasErrors() {
			t.Fatal(rep.Error())
		}
		if err := asttransform.MergeDefinitionWithBaseSchema(&def); err != nil {
			t.Fatal(err)
		}
		for _, op := range []string{"{ role { a } }", "{ role { ... on Role { a } } }", "{ role @Role { a } }"} {
			doc, rep := astparser.ParseGraphqlDocumentString(op)
			if rep.HasErrors() {
				t.Fatal(rep.Error())
			}
			report := operationreport.Report{}
			astnormalization.NewNormalizer(true, true).NormalizeOperation(&doc, &def, &report)
			if report.HasErrors() {
				t.Errorf("schema %q, valid operation %q: normalization: %s", schema, op, report.Error())
				continue
			}
			if state := astvalidation.DefaultOperationValidator().Validate(&doc, &def, &report); state != astvalidation.Valid {
				t.Errorf("schema %q, valid operation %q rejected: %s", schema, op, report.Error())
			}
		}
		// controls: still rejected
		for _, op := range []string{"{ role @Nope { a } }", "{ role { ... on Nope { a } } }", "query($r: Role) { role { a } }"} {
			doc, rep := astparser.ParseGraphqlDocumentString(op)
			if rep.HasErrors() {
				t.Fatal(rep.Error())
			}
			report := operationreport.Report{}
			astnormalization.NewNormalizer(true, true).NormalizeOperation(&doc, &def, &report)
			if report.HasErrors() {
				continue
			}
			if state := astvalidation.DefaultOperationValidator().Validate(&doc, &def, &report); state == astvalidation.Valid {
				t.Errorf("schema %q, invalid operation %q accepted", schema, op)
			}
		}
	}
}
