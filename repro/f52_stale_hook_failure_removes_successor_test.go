package resolve

// C13 / existing_2: the failure of a (slow) startup hook of a subscription that is already gone
// removes a different, healthy subscription that legitimately re-uses the same id.
// Drop into v2/pkg/engine/resolve/ and run
//
//	cd v2 && go test ./pkg/engine/resolve/ -run 'TestC13Existing2' -count=1 -v

import (
	"bytes"
	"context"
	"errors"
	"net/http"
	"testing"
	"time"

	"github.com/cespare/xxhash/v2"
	"github.com/stretchr/testify/require"
)

type c13existing2Source struct {
	failCtx context.Context // the hook of the subscription with this context blocks, then fails
	release chan struct{}
}

func (s *c13existing2Source) HashTriggerInput(input []byte, xxh *xxhash.Digest) error {
	_, err := xxh.Write(input)
	return err
}

func (s *c13existing2Source) Start(ctx *Context, _ http.Header, _ []byte, updater SubscriptionUpdater) error {
	context.AfterFunc(ctx.Context(), updater.Done)
	return nil
}

func (s *c13existing2Source) SubscriptionOnStart(ctx StartupHookContext, _ []byte) error {
	if ctx.Context == s.failCtx {
		<-s.release
		return errors.New("startup hook failed")
	}
	return nil
}

func TestC13Existing2_StaleHookFailureRemovesNewSubscriptionWithSameID(t *testing.T) {
	resolverCtx, stop := context.WithCancel(context.Background())
	defer stop()

	resolver := New(resolverCtx, ResolverOptions{
		MaxConcurrency:                16,
		AsyncErrorWriter:              &FakeErrorWriter{},
		SubscriptionHeartbeatInterval: time.Hour,
	})

	type key struct{}
	failCtx := context.WithValue(context.Background(), key{}, "old")
	source := &c13existing2Source{failCtx: failCtx, release: make(chan struct{})}

	plan := &GraphQLSubscription{
		Trigger: GraphQLSubscriptionTrigger{
			Source: source,
			InputTemplate: InputTemplate{
				Segments: []TemplateSegment{{
					SegmentType: StaticSegmentType,
					Data:        []byte(`{"method":"POST","url":"http://localhost:4000","body":{"query":"subscription { counter }"}}`),
				}},
			},
			PostProcessing: PostProcessingConfiguration{
				SelectResponseDataPath:   []string{"data"},
				SelectResponseErrorsPath: []string{"errors"},
			},
		},
		Response: &GraphQLResponse{
			Data: &Object{
				Fields: []*Field{{
					Name:  []byte("counter"),
					Value: &Integer{Path: []string{"counter"}},
				}},
			},
		},
	}
	newWriter := func() *SubscriptionRecorder { return &SubscriptionRecorder{buf: &bytes.Buffer{}} }

	// some other client keeps the trigger alive
	other := SubscriptionIdentifier{ConnectionID: NewConnectionID(), SubscriptionID: 1}
	require.NoError(t, resolver.AsyncResolveGraphQLSubscription(NewContext(context.Background()), plan, newWriter(), other))

	// operation 7 of a second connection joins the trigger; its startup hook is slow
	id := SubscriptionIdentifier{ConnectionID: NewConnectionID(), SubscriptionID: 7}
	require.NoError(t, resolver.AsyncResolveGraphQLSubscription(NewContext(failCtx), plan, newWriter(), id))
	// the client stops operation 7 ...
	require.NoError(t, resolver.UnsubscribeSubscription(id))
	// ... and starts a new operation under the now free id 7 (allowed by graphql-transport-ws)
	newOp := newWriter()
	require.NoError(t, resolver.AsyncResolveGraphQLSubscription(NewContext(context.Background()), plan, newOp, id))

	// now the hook of the OLD operation 7 fails
	close(source.release)
	time.Sleep(200 * time.Millisecond)

	resolver.mu.Lock()
	_, stillThere := resolver.subscriptionsByID[id]
	resolver.mu.Unlock()
	require.True(t, stillThere, "the new operation 7 was removed (silently: no error, no complete) by the hook failure of the old operation 7")
}
