package websocket_test

// existing_6 (C19): on the UNMODIFIED tree websocket.Client.DisconnectWithReason first writes the
// close frame and only afterwards marks the client as closed. A subscription goroutine that emits a
// message in between still sees IsConnected()==true and writes a text frame AFTER the close frame
// (RFC 6455 5.5.1: no data frames after a Close frame; graphql-transport-ws: the 44xx close is the
// last thing the server sends). See existing_6.md.
//
// Drop into execution/subscription/websocket/ and run
//   go test -count=1 -run 'TestC19Existing6' ./subscription/websocket/
// from the execution/ module.

import (
	"encoding/binary"
	"errors"
	"fmt"
	"net"
	"strings"
	"sync"
	"testing"
	"time"

	"github.com/gobwas/ws"
	"github.com/jensneuse/abstractlogger"

	"github.com/wundergraph/graphql-go-tools/execution/subscription"
	"github.com/wundergraph/graphql-go-tools/execution/subscription/websocket"
)

// c19e6Logger pauses the goroutine that is inside DisconnectWithReason right after the close frame
// was written (the debug line "before sending close frame" is logged AFTER the frame went out) -
// i.e. it pins the interleaving "closing goroutine is descheduled between write and state change".
type c19e6Logger struct {
	abstractlogger.Noop
	reached chan struct{}
	release chan struct{}
	once    sync.Once
}

func (l *c19e6Logger) Debug(msg string, _ ...abstractlogger.Field) {
	if strings.Contains(msg, "DisconnectWithReason: before sending close frame") {
		l.once.Do(func() {
			close(l.reached)
			<-l.release
		})
	}
}

func TestC19Existing6_NoDataFrameAfterCloseFrame(t *testing.T) {
	peer, serverSide := net.Pipe()
	defer peer.Close()

	logger := &c19e6Logger{reached: make(chan struct{}), release: make(chan struct{})}
	client := websocket.NewClient(logger, serverSide)

	// the peer records every frame the server puts on the wire, in order
	var (
		mu     sync.Mutex
		frames []string
	)
	go func() {
		for {
			f, err := ws.ReadFrame(peer)
			if err != nil {
				return
			}
			mu.Lock()
			switch f.Header.OpCode {
			case ws.OpClose:
				frames = append(frames, fmt.Sprintf("CLOSE %d %s", binary.BigEndian.Uint16(f.Payload[:2]), f.Payload[2:]))
			default:
				frames = append(frames, fmt.Sprintf("TEXT %s", f.Payload))
			}
			mu.Unlock()
		}
	}()

	// read loop goroutine: second connection_init -> close with 4429
	closed := make(chan error, 1)
	go func() {
		closed <- client.DisconnectWithReason(websocket.NewCloseReason(4429, "Too many initialisation requests"))
	}()

	select {
	case <-logger.reached:
	case <-time.After(2 * time.Second):
		t.Fatal("close frame was not written")
	}

	// subscription goroutine: emits the next event of a running subscription
	writeErr := client.WriteBytesToClient([]byte(`{"id":"1","type":"next","payload":{"data":{"ok":true}}}`))

	close(logger.release)
	if err := <-closed; err != nil {
		t.Fatalf("DisconnectWithReason: %v", err)
	}
	time.Sleep(20 * time.Millisecond)

	mu.Lock()
	got := append([]string(nil), frames...)
	mu.Unlock()

	if len(got) != 1 || !strings.HasPrefix(got[0], "CLOSE 4429") {
		t.Errorf("frames on the wire: %q - want only the close frame", got)
	}
	if !errors.Is(writeErr, subscription.ErrTransportClientClosedConnection) {
		t.Errorf("WriteBytesToClient after the close frame returned %v, want %v", writeErr, subscription.ErrTransportClientClosedConnection)
	}
}
