package resolve

// C13 / existing_3: callbacks of the updater of an already removed trigger (Update / Complete /
// Error / Heartbeat / UpdateSubscription) are routed by trigger id, and the only thing that stops
// them is the trigger context - which is cancelled only AFTER closeSubs, i.e. after taking the
// writeMu of every removed subscriber. While a removed subscriber's writer is blocked in a write
// (here: a heartbeat to a slow client) the old upstream stays alive, and everything it emits is
// delivered to the NEW trigger that another subscriber registered under the same (re-used) id.
// Drop into v2/pkg/engine/resolve/ and run
//
//	cd v2 && go test ./pkg/engine/resolve/ -run 'TestC13Existing3' -count=1 -v

import (
	"bytes"
	"context"
	"net/http"
	"sync"
	"testing"
	"time"

	"github.com/cespare/xxhash/v2"
	"github.com/stretchr/testify/assert"
	"github.com/stretchr/testify/require"
)

type c13existing3Source struct {
	updaters chan SubscriptionUpdater
}

func (s *c13existing3Source) HashTriggerInput(input []byte, xxh *xxhash.Digest) error {
	_, err := xxh.Write(input)
	return err
}

func (s *c13existing3Source) Start(ctx *Context, _ http.Header, _ []byte, updater SubscriptionUpdater) error {
	context.AfterFunc(ctx.Context(), updater.Done)
	s.updaters <- updater
	return nil
}

// c13existing3SlowClient blocks in Heartbeat like a connection whose peer does not read.
type c13existing3SlowClient struct {
	SubscriptionRecorder
	once    sync.Once
	entered chan struct{}
	release chan struct{}
}

func (w *c13existing3SlowClient) Heartbeat() error {
	w.once.Do(func() { close(w.entered) })
	<-w.release
	return nil
}

func TestC13Existing3_RemovedTriggerStillFeedsItsSuccessor(t *testing.T) {
	resolverCtx, stop := context.WithCancel(context.Background())
	defer stop()

	resolver := New(resolverCtx, ResolverOptions{
		MaxConcurrency:                16,
		AsyncErrorWriter:              &FakeErrorWriter{},
		SubscriptionHeartbeatInterval: 20 * time.Millisecond,
	})

	source := &c13existing3Source{updaters: make(chan SubscriptionUpdater, 2)}
	plan := &GraphQLSubscription{
		Trigger: GraphQLSubscriptionTrigger{
			Source: source,
			InputTemplate: InputTemplate{
				Segments: []TemplateSegment{{
					SegmentType: StaticSegmentType,
					Data:        []byte(`{"method":"POST","url":"http://localhost:4000","body":{"query":"subscription { counter }"}}`),
				}},
			},
			PostProcessing: PostProcessingConfiguration{
				SelectResponseDataPath:   []string{"data"},
				SelectResponseErrorsPath: []string{"errors"},
			},
		},
		Response: &GraphQLResponse{
			Data: &Object{
				Fields: []*Field{{
					Name:  []byte("counter"),
					Value: &Integer{Path: []string{"counter"}},
				}},
			},
		},
	}

	// subscriber A: slow client with heartbeats enabled; creates trigger T1
	slow := &c13existing3SlowClient{
		SubscriptionRecorder: SubscriptionRecorder{buf: &bytes.Buffer{}},
		entered:              make(chan struct{}),
		release:              make(chan struct{}),
	}
	defer close(slow.release)
	ctxA := NewContext(context.Background())
	ctxA.ExecutionOptions.SendHeartbeat = true
	idA := SubscriptionIdentifier{ConnectionID: NewConnectionID(), SubscriptionID: 1}
	require.NoError(t, resolver.AsyncResolveGraphQLSubscription(ctxA, plan, slow, idA))
	oldUpdater := <-source.updaters

	// the resolver's heartbeat loop is now stuck writing to A (holds A's writeMu)
	select {
	case <-slow.entered:
	case <-time.After(5 * time.Second):
		t.Fatal("no heartbeat was sent")
	}

	// A (the last subscriber of T1) leaves. T1 is removed from the registry, but the call is stuck
	// in closeSubs -> done() -> writeMu, before it gets to cancel T1's context.
	go func() { _ = resolver.UnsubscribeSubscription(idA) }()
	require.Eventually(t, func() bool {
		resolver.mu.Lock()
		defer resolver.mu.Unlock()
		return len(resolver.triggers) == 0
	}, 2*time.Second, time.Millisecond)

	// subscriber B, same input: new trigger T2 under the same id, second upstream subscription
	fresh := &SubscriptionRecorder{buf: &bytes.Buffer{}}
	idB := SubscriptionIdentifier{ConnectionID: NewConnectionID(), SubscriptionID: 1}
	require.NoError(t, resolver.AsyncResolveGraphQLSubscription(NewContext(context.Background()), plan, fresh, idB))
	select {
	case <-source.updaters:
	case <-time.After(5 * time.Second):
		t.Fatal("Start was not called for the new trigger")
	}

	// the upstream of the REMOVED trigger T1 is still running and emits an event, then finishes
	oldUpdater.Update([]byte(`{"data":{"counter":1}}`))
	oldUpdater.Complete()

	assert.Empty(t, fresh.Messages(), "B received an event from the upstream of the removed trigger T1")
	assert.False(t, fresh.complete.Load(), "B was sent 'complete' by the removed trigger T1 although B's own trigger T2 and upstream are alive")

	resolver.mu.Lock()
	_, registered := resolver.subscriptionsByID[idB]
	resolver.mu.Unlock()
	assert.True(t, registered)
}
