package engine

// F95 (C07): only transport errors made the dependants of a fetch skip. Every failure found out while merging — HTTP 500
// with an empty or non-JSON body, errors without data, data:null with errors, the wrong number of entities — was
// rendered as an error but not recorded in Loader.erroredFetchIDs, and the dependent entity fetch was sent with
// fabricated representations: { accounts { id full } }, full @requires(fields: "title"), the title fetch failing: the
// `full` fetch went out with "title":null for every entity, a request the fault-free run never sends.
// Drop into execution/engine/ and run
//   cd execution && go test ./engine -run TestF95 -count=1
// Fails before the fix, passes after.

import (
	"bytes"
	"context"
	"errors"
	"io"
	"net/http"
	"sync"
	"testing"

	"github.com/jensneuse/abstractlogger"
	"github.com/stretchr/testify/assert"
	"github.com/stretchr/testify/require"

	"github.com/wundergraph/graphql-go-tools/execution/graphql"
	"github.com/wundergraph/graphql-go-tools/v2/pkg/engine/datasource/graphql_datasource"
	"github.com/wundergraph/graphql-go-tools/v2/pkg/engine/plan"
	"github.com/wundergraph/graphql-go-tools/v2/pkg/engine/resolve"
)

type c07e1Fault struct {
	transportErr bool
	status       int
	body         string
}

type c07e1Subgraphs struct {
	mu        sync.Mutex
	responses map[string]string
	faults    map[string]c07e1Fault
	seen      []string
}

func (s *c07e1Subgraphs) RoundTrip(req *http.Request) (*http.Response, error) {
	body, _ := io.ReadAll(req.Body)
	_ = req.Body.Close()
	key := req.URL.Host + "|" + string(body)
	s.mu.Lock()
	s.seen = append(s.seen, key)
	s.mu.Unlock()
	if f, ok := s.faults[key]; ok {
		if f.transportErr {
			return nil, errors.New("connection refused")
		}
		return &http.Response{StatusCode: f.status, Body: io.NopCloser(bytes.NewBufferString(f.body))}, nil
	}
	if r, ok := s.responses[key]; ok {
		return &http.Response{StatusCode: 200, Body: io.NopCloser(bytes.NewBufferString(r))}, nil
	}
	return &http.Response{StatusCode: 200, Body: io.NopCloser(bytes.NewBufferString(`{"errors":[{"message":"request not known to the test subgraph"}]}`))}, nil
}

func c07e1Execute(t *testing.T, rt http.RoundTripper) string {
	t.Helper()
	definition := `
		type Query { accounts: [User!]! }
		type User { id: ID! title: String full: String }`
	firstSDL := `
		type Query { accounts: [User!]! }
		type User @key(fields: "id") { id: ID! title: String @external full: String @requires(fields: "title") }`
	secondSDL := `
		type User @key(fields: "id") { id: ID! title: String }`
	schema, err := graphql.NewSchemaFromString(definition)
	require.NoError(t, err)
	client := &http.Client{Transport: rt}
	engineConf := NewConfiguration(schema)
	engineConf.SetDataSources([]plan.DataSource{
		mustGraphqlDataSourceConfiguration(t, "id-1", mustFactory(t, client),
			&plan.DataSourceMetadata{
				RootNodes: []plan.TypeField{
					{TypeName: "Query", FieldNames: []string{"accounts"}},
					{TypeName: "User", FieldNames: []string{"id", "full"}, ExternalFieldNames: []string{"title"}},
				},
				FederationMetaData: plan.FederationMetaData{
					Keys:     plan.FederationFieldConfigurations{{TypeName: "User", SelectionSet: "id"}},
					Requires: plan.FederationFieldConfigurations{{TypeName: "User", FieldName: "full", SelectionSet: "title"}},
				},
			},
			mustConfiguration(t, graphql_datasource.ConfigurationInput{
				Fetch:               &graphql_datasource.FetchConfiguration{URL: "https://first/", Method: "POST"},
				SchemaConfiguration: mustSchemaConfig(t, &graphql_datasource.FederationConfiguration{Enabled: true, ServiceSDL: firstSDL}, firstSDL),
			}),
		),
		mustGraphqlDataSourceConfiguration(t, "id-2", mustFactory(t, client),
			&plan.DataSourceMetadata{
				RootNodes: []plan.TypeField{{TypeName: "User", FieldNames: []string{"id", "title"}}},
				FederationMetaData: plan.FederationMetaData{
					Keys: plan.FederationFieldConfigurations{{TypeName: "User", SelectionSet: "id"}},
				},
			},
			mustConfiguration(t, graphql_datasource.ConfigurationInput{
				Fetch:               &graphql_datasource.FetchConfiguration{URL: "https://second/", Method: "POST"},
				SchemaConfiguration: mustSchemaConfig(t, &graphql_datasource.FederationConfiguration{Enabled: true, ServiceSDL: secondSDL}, secondSDL),
			}),
		),
	})
	ctx, cancel := context.WithCancel(context.Background())
	defer cancel()
	eng, err := NewExecutionEngine(ctx, abstractlogger.Noop{}, engineConf, resolve.ResolverOptions{MaxConcurrency: 16})
	require.NoError(t, err)
	op := graphql.Request{Query: `query Accounts { accounts { id full } }`}
	w := graphql.NewEngineResultWriter()
	require.NoError(t, eng.Execute(ctx, &op, &w))
	return w.String()
}

func TestF95_NonTransportFailureOfRequiresProviderFabricatesDependentRequest(t *testing.T) {
	rootReq := `first|{"query":"{accounts {id __typename}}"}`
	titleReq := `second|{"query":"query($representations: [_Any!]!){_entities(representations: $representations){... on User {__typename title}}}","variables":{"representations":[{"__typename":"User","id":"1"},{"__typename":"User","id":"3"}]}}`
	fullReq := `first|{"query":"query($representations: [_Any!]!){_entities(representations: $representations){... on User {__typename full}}}","variables":{"representations":[{"__typename":"User","title":"User1","id":"1"},{"__typename":"User","title":"User3","id":"3"}]}}`
	responses := map[string]string{
		rootReq:  `{"data":{"accounts":[{"__typename":"User","id":"1"},{"__typename":"User","id":"3"}]}}`,
		titleReq: `{"data":{"_entities":[{"__typename":"User","title":"User1"},{"__typename":"User","title":"User3"}]}}`,
		fullReq:  `{"data":{"_entities":[{"__typename":"User","full":"User1 full"},{"__typename":"User","full":"User3 full"}]}}`,
	}

	base := &c07e1Subgraphs{responses: responses}
	require.Equal(t, `{"data":{"accounts":[{"id":"1","full":"User1 full"},{"id":"3","full":"User3 full"}]}}`, c07e1Execute(t, base))
	allowed := map[string]bool{}
	for _, r := range base.seen {
		allowed[r] = true
	}
	require.Len(t, allowed, 3)

	faults := []struct {
		name  string
		fault c07e1Fault
	}{
		{"transport error (control: handled correctly)", c07e1Fault{transportErr: true}},
		{"status 500, empty body", c07e1Fault{status: 500}},
		{"status 500, non-JSON body", c07e1Fault{status: 500, body: `<html>oops</html>`}},
		{"status 200, errors without data", c07e1Fault{status: 200, body: `{"errors":[{"message":"boom"}]}`}},
		{"status 200, data null with errors", c07e1Fault{status: 200, body: `{"data":null,"errors":[{"message":"boom"}]}`}},
		{"status 200, wrong entity count", c07e1Fault{status: 200, body: `{"data":{"_entities":[{"__typename":"User","title":"User1"}]}}`}},
	}
	for _, tc := range faults {
		t.Run(tc.name, func(t *testing.T) {
			rt := &c07e1Subgraphs{responses: responses, faults: map[string]c07e1Fault{titleReq: tc.fault}}
			out := c07e1Execute(t, rt)
			t.Logf("response: %s", out)
			assert.Contains(t, out, `"errors":[`)
			assert.Contains(t, out, `"data":{"accounts":[{"id":"1","full":null},{"id":"3","full":null}]}`)
			for _, r := range rt.seen {
				assert.Truef(t, allowed[r], "after the failure the gateway sent a request that the fault-free run never sends:\n%s", r)
			}
		})
	}
}
