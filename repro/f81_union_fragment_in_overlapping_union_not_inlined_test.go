// F81 (C03-R15), reported as existing_4 by a seeding sub-agent. Copy into v2/pkg/astnormalization/ and run:
//   cd v2 && go test ./pkg/astnormalization/ -run TestF81 -count=1 -v
package astnormalization

// existing_4 (C03): a spread of a fragment defined on a union is not inlined when the
// enclosing type is a different, overlapping union. The valid operation leaves
// normalization with the spread and the fragment definition still in place and is then
// rejected by the operation validator.
//
// Goes into v2/pkg/astnormalization/ ; run:
//   cd v2 && go test ./pkg/astnormalization/ -run TestF81UnionFragmentInsideOverlappingUnionIsInlined -count=1 -v

import (
	"testing"

	"github.com/wundergraph/graphql-go-tools/v2/pkg/astprinter"
	"github.com/wundergraph/graphql-go-tools/v2/pkg/astvalidation"
	"github.com/wundergraph/graphql-go-tools/v2/pkg/internal/unsafeparser"
	"github.com/wundergraph/graphql-go-tools/v2/pkg/operationreport"
)

const c03e4Schema = `
type Query { search: SearchResult }
type A { a: String }
type B { b: String }
type C { c: String }
union SearchResult = A | B
union Media = A | C
`

func c03e4Normalize(t *testing.T, operation string) (printed string, validationErr string) {
	t.Helper()
	def := unsafeparser.ParseGraphqlDocumentStringWithBaseSchema(c03e4Schema)
	doc := unsafeparser.ParseGraphqlDocumentString(operation)
	doc.Input.Variables = []byte(`{}`)
	rep := operationreport.Report{}
	NewWithOpts(
		WithExtractVariables(),
		WithRemoveFragmentDefinitions(),
		WithRemoveUnusedVariables(),
		WithInlineFragmentSpreads(),
		WithRemoveNotMatchingOperationDefinitions(),
	).NormalizeNamedOperation(&doc, &def, []byte("Q"), &rep)
	if rep.HasErrors() {
		t.Fatalf("normalization failed: %s", rep.Error())
	}
	printed, _ = astprinter.PrintString(&doc)
	vrep := operationreport.Report{}
	astvalidation.DefaultOperationValidator().Validate(&doc, &def, &vrep)
	if vrep.HasErrors() {
		validationErr = vrep.Error()
	}
	return
}

func TestF81UnionFragmentInsideOverlappingUnionIsInlined_UnionFragmentInOverlappingUnionNotInlined(t *testing.T) {
	// Spec 5.5.2.3.4 "Abstract Spreads in Abstract Scope": Media and SearchResult share member A, the spread is valid.
	const want = `query Q {search {... on Media {... on A {a}}}}`

	inline, verr := c03e4Normalize(t, `query Q { search { ... on Media { ... on A { a } } } }`)
	if inline != want || verr != "" {
		t.Fatalf("control (inline fragment) failed: %s / %s", inline, verr)
	}

	spread, verr := c03e4Normalize(t, `query Q { search { ...M } } fragment M on Media { ... on A { a } }`)
	if spread != want {
		t.Errorf("operations that differ only in fragment structure normalize differently:\n got: %s\nwant: %s", spread, want)
	}
	if verr != "" {
		t.Errorf("normalized operation is rejected by the validator: %s", verr)
	}
}
