package grpcdatasource

import (
	"testing"

	"github.com/stretchr/testify/require"

	"github.com/wundergraph/graphql-go-tools/v2/pkg/astparser"
	"github.com/wundergraph/graphql-go-tools/v2/pkg/internal/unsafeparser"
)

// The planner reads the `context` argument of @connect__fieldResolver with a partial accessor. The schema is configuration:
// a value that is not a string (here: null for a nullable argument type) must give a planning error, not a panic.
func TestF48FieldResolverContextThatIsNotAStringDoesNotPanic(t *testing.T) {
	schema := `
scalar connect__FieldSet
directive @connect__fieldResolver(context: connect__FieldSet) on FIELD_DEFINITION
schema { query: Query }
type Foo {
  id: ID!
  fooResolver(foo: String!): String! @connect__fieldResolver(context: null)
}
type Query { foo: Foo! }`
	schemaDoc := unsafeparser.ParseGraphqlDocumentStringWithBaseSchema(schema)
	queryDoc, report := astparser.ParseGraphqlDocumentString(`query Q($foo: String!) { foo { fooResolver(foo: $foo) } }`)
	require.False(t, report.HasErrors())

	planner, err := NewPlanner("Foo", mappingWithNestedResolverAndCompositeType(t), nil)
	require.NoError(t, err)
	require.NotPanics(t, func() {
		_, err = planner.PlanOperation(&queryDoc, &schemaDoc)
	})
	require.Error(t, err, "a context that is not a string is a planning error")
}
