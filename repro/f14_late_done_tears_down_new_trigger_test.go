package resolve

import (
	"bytes"
	"context"
	"net/http"
	"sync/atomic"
	"testing"
	"time"

	"github.com/cespare/xxhash/v2"
)

// lateDoneSource reacts to the cancellation of its trigger context by calling updater.Done() a little later
// (like graphql_subscription_client does after a network write).
type lateDoneSource struct {
	started atomic.Int32
}

func (s *lateDoneSource) HashTriggerInput(input []byte, xxh *xxhash.Digest) error {
	_, err := xxh.Write(input)
	return err
}

func (s *lateDoneSource) Start(ctx *Context, headers http.Header, input []byte, updater SubscriptionUpdater) error {
	s.started.Add(1)
	context.AfterFunc(ctx.ctx, func() {
		time.Sleep(100 * time.Millisecond)
		updater.Done()
	})
	return nil
}

func TestF14_LateDoneOfOldTriggerTearsDownNewTrigger(t *testing.T) {
	rctx, cancel := context.WithCancel(context.Background())
	defer cancel()
	r := newResolver(rctx)
	src := &lateDoneSource{}
	plan := &GraphQLSubscription{
		Trigger: GraphQLSubscriptionTrigger{
			Source:         src,
			InputTemplate:  InputTemplate{Segments: []TemplateSegment{{SegmentType: StaticSegmentType, Data: []byte(`{"method":"POST","url":"http://localhost:4000","body":{"query":"subscription { counter }"}}`)}}},
			PostProcessing: PostProcessingConfiguration{SelectResponseDataPath: []string{"data"}, SelectResponseErrorsPath: []string{"errors"}},
		},
		Response: &GraphQLResponse{Data: &Object{Fields: []*Field{{Name: []byte("counter"), Value: &Integer{Path: []string{"counter"}}}}}},
	}
	newRecorder := func() *SubscriptionRecorder {
		return &SubscriptionRecorder{buf: &bytes.Buffer{}, messages: []string{}}
	}
	// A subscribes, then leaves: trigger removed, its context cancelled, the source will call Done() 100ms later
	idA := SubscriptionIdentifier{ConnectionID: 1, SubscriptionID: 1}
	ctxA := NewContext(context.Background())
	if err := r.AsyncResolveGraphQLSubscription(ctxA, plan, newRecorder(), idA); err != nil {
		t.Fatal(err)
	}
	for src.started.Load() != 1 {
		time.Sleep(time.Millisecond)
	}
	if err := r.UnsubscribeSubscription(idA); err != nil {
		t.Fatal(err)
	}
	// B subscribes with the same input (same trigger id) before the late Done() of A's trigger arrives
	idB := SubscriptionIdentifier{ConnectionID: 2, SubscriptionID: 1}
	ctxB := NewContext(context.Background())
	recB := newRecorder()
	if err := r.AsyncResolveGraphQLSubscription(ctxB, plan, recB, idB); err != nil {
		t.Fatal(err)
	}
	for src.started.Load() != 2 {
		time.Sleep(time.Millisecond)
	}
	time.Sleep(400 * time.Millisecond)
	r.mu.Lock()
	nTriggers, nSubs := len(r.triggers), len(r.subscriptionsByID)
	r.mu.Unlock()
	t.Logf("after the late Done() of A's trigger: triggers=%d subscriptions=%d", nTriggers, nSubs)
	if nTriggers != 1 || nSubs != 1 {
		t.Fatalf("DEFECT REPRODUCED: subscriber B (still subscribed) lost its trigger: the late Done() of the removed trigger A tore down the new trigger registered under the same id (triggers=%d subscriptions=%d, want 1/1)", nTriggers, nSubs)
	}
}
