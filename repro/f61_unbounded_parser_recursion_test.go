package astparser

// F61 (C05-R11), reported as existing_8 by a seeding sub-agent: the parser (ParseType / ParseValue / parseSelectionSet) recurses once per nesting
// level without any bound. Brackets are not counted by TokenizeWithLimits, so even with depth and
// field limits a ~2-3 MB input kills the whole process with "fatal error: stack overflow"
// (a fatal error cannot be recovered, the deferred recover() below never runs).
//
// Drop into v2/pkg/astparser/ and run:
//   cd v2 && go test ./pkg/astparser -run TestF61 -count=1
// Expected on the unmodified tree: the test binary dies with
//   runtime: goroutine stack exceeds 1000000000-byte limit ... fatal error: stack overflow
// (needs ~1 GB of memory for the goroutine stack for a few seconds).

import (
	"strings"
	"testing"

	"github.com/wundergraph/graphql-go-tools/v2/pkg/ast"
	"github.com/wundergraph/graphql-go-tools/v2/pkg/operationreport"
)

func ex8Parse(t *testing.T, input string) {
	t.Helper()
	defer func() {
		if r := recover(); r != nil {
			t.Errorf("panic: %v", r)
		}
	}()
	doc := ast.NewSmallDocument()
	doc.Input.ResetInputString(input)
	report := operationreport.Report{}
	_, err := NewParser().ParseWithLimits(TokenizerLimits{MaxDepth: 10, MaxFields: 100}, doc, &report)
	if err == nil && !report.HasErrors() {
		t.Errorf("truncated input accepted")
	}
}

func TestF61UnboundedRecursion(t *testing.T) {
	t.Run("list type in a variable definition", func(t *testing.T) {
		ex8Parse(t, "query($a:"+strings.Repeat("[", 3_000_000))
	})
	t.Run("list value in an argument", func(t *testing.T) {
		ex8Parse(t, "{a(b:"+strings.Repeat("[", 4_000_000))
	})
	t.Run("object value in an argument", func(t *testing.T) {
		ex8Parse(t, "{a(b:"+strings.Repeat("{c:", 3_000_000))
	})
	t.Run("selection sets, plain Parse", func(t *testing.T) {
		doc := ast.NewSmallDocument()
		doc.Input.ResetInputString(strings.Repeat("{a", 3_000_000))
		report := operationreport.Report{}
		NewParser().Parse(doc, &report)
		if !report.HasErrors() {
			t.Errorf("truncated input accepted")
		}
	})
	t.Run("deep but reasonable nesting is still accepted", func(t *testing.T) {
		doc := ast.NewSmallDocument()
		doc.Input.ResetInputString("query($a:" + strings.Repeat("[", 500) + "Int" + strings.Repeat("]", 500) + "){a(b:" + strings.Repeat("[", 500) + strings.Repeat("]", 500) + ")" + strings.Repeat("{a", 500) + strings.Repeat("}", 500) + "}")
		report := operationreport.Report{}
		NewParser().Parse(doc, &report)
		if report.HasErrors() {
			t.Errorf("rejected: %s", report.Error())
		}
	})
}
