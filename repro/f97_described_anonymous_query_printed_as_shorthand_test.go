package astprinter

// F97 (C05): the printer used the query shorthand `{...}` for an anonymous query that carries a description; the parser
// accepts a description only in front of a keyword, so the printed text did not re-parse:
//   "the description" query { a }   ->   "the description"<LF>{a}   ->   got: LBRACE want one of: [IDENT]
// (Test by a round-3 seeding sub-agent, existing_4, reduced to the description cases; the cases where the shorthand is
// glued to a body-less type definition of a mixed document are not repaired.)
// Drop into v2/pkg/astprinter/ and run
//   cd v2 && go test ./pkg/astprinter -run TestF97 -count=1 -v
// Fails before the fix, passes after.

import (
	"fmt"
	"testing"

	"github.com/wundergraph/graphql-go-tools/v2/pkg/ast"
	"github.com/wundergraph/graphql-go-tools/v2/pkg/astparser"
	"github.com/wundergraph/graphql-go-tools/v2/pkg/operationreport"
)

func f97Parse(in string) (doc *ast.Document, err error) {
	defer func() {
		if r := recover(); r != nil {
			err = fmt.Errorf("PANIC: %v", r)
		}
	}()
	d := ast.NewSmallDocument()
	d.Input.ResetInputString(in)
	rep := operationreport.Report{}
	astparser.NewParser().Parse(d, &rep)
	if rep.HasErrors() {
		return nil, fmt.Errorf("parse error: %s", rep.Error())
	}
	return d, nil
}

// f97RoundTrip: the input must parse; its print must re-parse; printing the re-parsed
// document must give the same text again (fixed point after one round).
func f97RoundTrip(t *testing.T, in string) (first, second *ast.Document) {
	t.Helper()
	d, err := f97Parse(in)
	if err != nil {
		t.Fatalf("precondition: input %q must be accepted by the parser: %v", in, err)
	}
	p1, err := PrintString(d)
	if err != nil {
		t.Fatalf("print: %v", err)
	}
	d2, err := f97Parse(p1)
	if err != nil {
		t.Fatalf("accepted input %q prints as %q which does not re-parse: %v", in, p1, err)
	}
	p2, err := PrintString(d2)
	if err != nil {
		t.Fatalf("print: %v", err)
	}
	if p1 != p2 {
		t.Fatalf("printing is not a fixed point after one round:\ninput:  %q\nprint1: %q\nprint2: %q", in, p1, p2)
	}
	return d, d2
}

// existing_4: the printer uses the query shorthand `{...}` where it is not allowed / ambiguous.
func TestF97_DescribedQueryKeepsItsKeyword(t *testing.T) {
	for _, in := range []string{
		`"the description" query { a }`,           // description + anonymous query
		"\"\"\"the description\"\"\" query { a }", // block description
		`{ a } "d" query { b }`,                   // second operation
	} {
		t.Run(in, func(t *testing.T) {
			d1, d2 := f97RoundTrip(t, in)
			if a, b := len(d1.RootNodes), len(d2.RootNodes); a != b {
				t.Errorf("%d root nodes before printing, %d after", a, b)
			}
			if a, b := len(d1.OperationDefinitions), len(d2.OperationDefinitions); a != b {
				t.Errorf("%d operations before printing, %d after", a, b)
			}
		})
	}
}
