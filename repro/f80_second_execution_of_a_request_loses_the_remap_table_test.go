// F80 (C09-R10), reported independently by two seeding sub-agents (C09 existing_4, C06 existing_6). Copy into execution/engine/ and run:
//   cd execution && go test ./engine -run TestF80 -count=1
package engine

// existing_4: executing the same *graphql.Request a second time (a retry, a
// benchmark loop, a stored/persisted request object) silently drops its
// variables.
//
// The first Execute normalizes the request's document in place: variables are
// renamed to canonical names and the request is marked normalized. The second
// Execute skips normalization (operation.IsNormalized()) and therefore also the
// variables mapper, so Context.RemapVariables is nil while the document (and the
// cached plan) use the canonical names. The canonical name is then looked up in
// the client's variables, is not found, and the subgraph receives no value.
//
// Drop into execution/engine/ and run:
//   cd execution && go test ./engine -run TestF80SecondExecutionKeepsItsVariables -count=1

import (
	"bytes"
	"context"
	"io"
	"net/http"
	"testing"

	"github.com/jensneuse/abstractlogger"
	"github.com/stretchr/testify/require"

	"github.com/wundergraph/graphql-go-tools/execution/graphql"
	"github.com/wundergraph/graphql-go-tools/v2/pkg/engine/datasource/graphql_datasource"
	"github.com/wundergraph/graphql-go-tools/v2/pkg/engine/plan"
	"github.com/wundergraph/graphql-go-tools/v2/pkg/engine/resolve"
)

const c09e4Schema = `type Query { user(id: String): String }`

func TestF80SecondExecutionKeepsItsVariables_ReExecutingARequestLosesItsVariables(t *testing.T) {
	schema, err := graphql.NewSchemaFromString(c09e4Schema)
	require.NoError(t, err)
	var bodies []string
	rt := testRoundTripper(func(req *http.Request) *http.Response {
		body, _ := io.ReadAll(req.Body)
		bodies = append(bodies, string(body))
		return &http.Response{StatusCode: 200, Body: io.NopCloser(bytes.NewBufferString(`{"data":{"user":"ok"}}`))}
	})
	ds := mustGraphqlDataSourceConfiguration(t, "ds",
		mustFactory(t, &http.Client{Transport: rt}),
		&plan.DataSourceMetadata{RootNodes: []plan.TypeField{{TypeName: "Query", FieldNames: []string{"user"}}}},
		mustConfiguration(t, graphql_datasource.ConfigurationInput{
			Fetch:               &graphql_datasource.FetchConfiguration{URL: "http://ds/", Method: "POST"},
			SchemaConfiguration: mustSchemaConfig(t, nil, c09e4Schema),
		}),
	)
	conf := NewConfiguration(schema)
	conf.SetDataSources([]plan.DataSource{ds})
	conf.SetFieldConfigurations(plan.FieldConfigurations{
		{TypeName: "Query", FieldName: "user", Arguments: plan.ArgumentsConfigurations{{Name: "id", SourceType: plan.FieldArgumentSource}}},
	})
	eng, err := NewExecutionEngine(context.Background(), abstractlogger.Noop{}, conf, resolve.ResolverOptions{MaxConcurrency: 8})
	require.NoError(t, err)

	req := graphql.Request{Query: `query($userID: String){ user(id: $userID) }`, Variables: []byte(`{"userID":"42"}`)}
	for i := 0; i < 2; i++ {
		w := graphql.NewEngineResultWriter()
		require.NoError(t, eng.Execute(context.Background(), &req, &w))
		require.Equal(t, `{"data":{"user":"ok"}}`, w.String())
	}
	require.Len(t, bodies, 2)
	t.Logf("1st execution: %s", bodies[0])
	t.Logf("2nd execution: %s", bodies[1])
	require.Equal(t, `{"query":"query($a: String){user(id: $a)}","variables":{"a":"42"}}`, bodies[0])
	require.Equal(t, bodies[0], bodies[1], "the second execution of the same request sends different variables to the subgraph")
}
