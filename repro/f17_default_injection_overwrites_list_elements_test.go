package astnormalization

import (
	"testing"

	"github.com/wundergraph/graphql-go-tools/v2/pkg/astparser"
	"github.com/wundergraph/graphql-go-tools/v2/pkg/asttransform"
	"github.com/wundergraph/graphql-go-tools/v2/pkg/operationreport"
)

func TestF17_DefaultInjectionKeepsListPositions(t *testing.T) {
	def, rep := astparser.ParseGraphqlDocumentString(`schema {query: Query} type Query { f(in: [In]): String } input In { a: String b: Int = 1 }`)
	if rep.HasErrors() {
		t.Fatal(rep)
	}
	if err := asttransform.MergeDefinitionWithBaseSchema(&def); err != nil {
		t.Fatal(err)
	}
	for _, tc := range []struct{ vars, want string }{
		{`{"in":[{"a":"x"},{"a":"y"}]}`, `{"in":[{"a":"x","b":1},{"a":"y","b":1}]}`},
		{`{"in":[null,{"a":"x"}]}`, `{"in":[null,{"a":"x","b":1}]}`},
		{`{"in":[{"a":"x"},null,{"a":"z"}]}`, `{"in":[{"a":"x","b":1},null,{"a":"z","b":1}]}`},
	} {
		op, _ := astparser.ParseGraphqlDocumentString(`query Q($in: [In]){ f(in: $in) }`)
		op.Input.Variables = []byte(tc.vars)
		r := operationreport.Report{}
		NewWithOpts(WithExtractVariables(), WithRemoveFragmentDefinitions()).NormalizeOperation(&op, &def, &r)
		if r.HasErrors() {
			t.Fatalf("%s: %v", tc.vars, r)
		}
		t.Logf("%s -> %s", tc.vars, op.Input.Variables)
		if string(op.Input.Variables) != tc.want {
			t.Errorf("DEFECT REPRODUCED: variables %s normalised to %s, want %s (the default of a later element is written to the position of an earlier, skipped element)", tc.vars, op.Input.Variables, tc.want)
		}
	}
}
