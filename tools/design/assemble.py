#!/usr/bin/env python3
"""DESIGN.md is assembled from the parts in this directory; the seeded-change table of §7 is taken from seeded/MATRIX.md.
Edit the parts, then run this script."""
import os
here = os.path.dirname(os.path.abspath(__file__))
verif = os.path.dirname(os.path.dirname(here))
rd = lambda n: open(os.path.join(here, n)).read()
m = open(os.path.join(verif, 'seeded', 'MATRIX.md')).read()
rows = [l for l in m.split('\n') if l.startswith('| C')]
caught = sum(1 for r in rows if '| caught |' in r)
caught_other = sum(1 for r in rows if '| caught by ' in r)
table = "| seed | result | rule and construct reported |\n|---|---|---|\n"
for r in rows:
    c = [x.strip() for x in r.strip('|').split('|')]
    table += f"| {c[0]} | {c[2]} | {c[3]} |\n"
table += f"\n{caught} of {len(rows)} confirmed seeded changes are caught by the registered quick check of their own property, {caught_other} more by the check of another property (a change usually breaks more than one), {len(rows) - caught - caught_other} are missed.\n"
# §3 summary: rule range and obligation count per property come from the committed evidence files
import json, re
def summary_cell(pid):
    try:
        ev = json.load(open(os.path.join(verif, 'evidence', pid + '.json')))
    except Exception:
        return None
    rules = [x['rule'] for x in ev['coverage'].get('rules', []) if '-R' in x['rule']]
    nums = sorted({int(re.sub(r'\D', '', x.split('-R')[1])) for x in rules})
    known = ev['coverage']['obligations'] - ev['coverage']['discharged']
    cell = f"R{nums[0]}–R{nums[-1]} ({ev['coverage']['obligations']}"
    if known:
        cell += f", {known} known findings"
    return cell + ")"
tail_text = rd('40_tail.md')
def fix_row(m):
    cell = summary_cell(m.group(1))
    return f"| {m.group(1)} | {cell} |" if cell else m.group(0)
tail_text = re.sub(r"\| (C\d\d) \| R\d+–R\d+ \([^|]*\) \|", fix_row, tail_text)
doc = rd('00_header.md') + rd('10_stance.md').rstrip('\n') + '\n\n' + rd('20_machinery.md').rstrip('\n') + '\n\n' + rd('30_properties.md').rstrip('\n') + '\n\n' + tail_text.replace('@@MATRIX@@', table)
open(os.path.join(verif, 'DESIGN.md'), 'w').write(doc)
print(len(doc.split('\n')), 'lines')
