#!/usr/bin/env python3
"""Re-confirms a kept seed (/verif/seeded/<id>) against the current /repo head in a fresh scratch worktree:
patch applies, both modules build, the demonstration fails with the change and passes without it, and the test packages
of the files the patch touches (plus execution/...) pass with the change. Used after a patch had to be ported."""
import json, os, re, shutil, subprocess, sys
def sh(c, cwd=None, timeout=3000):
    p = subprocess.run(c, shell=True, cwd=cwd, stdout=subprocess.PIPE, stderr=subprocess.STDOUT, text=True, timeout=timeout)
    return p.returncode, p.stdout
sid = sys.argv[1]
d = f"/verif/seeded/{sid}"
meta = json.load(open(f"{d}/meta.json"))
wt = f"/tmp/reverify-{sid}"
sh(f"git -C /repo worktree remove --force {wt}")
rc, out = sh(f"git -C /repo worktree add --detach {wt} HEAD")
try:
    m = re.match(r"cd (\S+) && (go test .*?) (\./\S+)\s*$", meta["demo_cmd"])
    mod, cmd, pkg = m.group(1), m.group(2), m.group(3)
    pkgdir = os.path.join(wt, mod, pkg.rstrip('/'))
    for f in meta.get("demo_files_used", meta.get("demo_files", [])):
        shutil.copy(os.path.join(d, os.path.basename(f)), pkgdir)
    rc0, o0 = sh(f"{cmd} {pkg}", cwd=os.path.join(wt, mod))
    rc, o = sh(f"git apply {d}/patch.diff", cwd=wt)
    assert rc == 0, o
    rcb, ob = sh("cd v2 && go build ./pkg/... && cd ../execution && go build ./...", cwd=wt)
    rc1, o1 = sh(f"{cmd} {pkg}", cwd=os.path.join(wt, mod))
    # tests of touched packages
    touched = sorted({os.path.dirname(l[6:]) for l in open(f"{d}/patch.diff") if l.startswith("+++ b/")})
    fails = []
    for t in touched:
        modt = "v2" if t.startswith("v2/") else "execution"
        for f in meta.get("demo_files_used", meta.get("demo_files", [])):
            pth = os.path.join(pkgdir, os.path.basename(f))
            if os.path.exists(pth): os.remove(pth)
        rct, ot = sh(f"go test -count=1 ./{t[len(modt)+1:]}/", cwd=os.path.join(wt, modt))
        if rct != 0: fails.append(t)
    rce, oe = sh("go test -count=1 ./...", cwd=os.path.join(wt, "execution"))
    if rce != 0: fails.append("execution/... : " + oe[-300:])
    res = {"repo_head": subprocess.check_output("git -C /repo log --format=%h -1", shell=True, text=True).strip(),
           "builds": rcb == 0, "demo_without_change_passes": rc0 == 0, "demo_with_change_fails": rc1 != 0, "existing_tests_failing_with_change": fails}
    meta["reverified"] = res
    ok = res["builds"] and res["demo_without_change_passes"] and res["demo_with_change_fails"] and not fails
    meta["status"] = "confirmed" if ok else "NOT confirmed after porting"
    json.dump(meta, open(f"{d}/meta.json", "w"), indent=1)
    print(sid, meta["status"], res)
finally:
    sh(f"git -C /repo worktree remove --force {wt}")
    shutil.rmtree(wt, ignore_errors=True)
