#!/usr/bin/env python3
"""Confirms a seeded breaking change delivered by a sub-agent and files it under /verif/seeded/.

usage: verify_seed.py <Cnn> <n> [--force]

Reads /tmp/seed/out-<Cnn>/change<n>.{diff,md} and the demo file(s), and in a fresh scratch worktree of
/repo's HEAD: applies the diff, builds both modules, runs both test suites (one retry of failing
packages: two timing tests of the subscription packages are flaky on a loaded machine), runs the
demonstration with the change (must fail) and without it (must pass). Only then the change is copied
to /verif/seeded/<Cnn>-<n>/ with meta.json. The worktree and its build output are removed.
"""
import json, os, re, shutil, subprocess, sys, time, glob

def sh(cmd, cwd=None, timeout=3600):
    p = subprocess.run(cmd, shell=True, cwd=cwd, stdout=subprocess.PIPE, stderr=subprocess.STDOUT, text=True, timeout=timeout)
    return p.returncode, p.stdout

def main():
    pid, n = sys.argv[1], sys.argv[2]
    # optional: seed directory of another round and the number offset under which the change is filed
    seed_dir = os.environ.get("SEED_DIR", "/tmp/seed")
    file_n = str(int(n) + int(os.environ.get("SEED_OFFSET", "0")))
    out = f"{seed_dir}/out-{pid}"
    diff = f"{out}/change{n}.diff"
    md = f"{out}/change{n}.md"
    if not os.path.exists(diff):
        print("no diff", diff); return 2
    mdtext = open(md).read() if os.path.exists(md) else ""
    # demo command: first `go test ... -run ...` line of the write-up
    mod = pat = pkg = None
    for line in mdtext.splitlines():
        if "go test" not in line or "-run" not in line:
            continue
        mr = re.search(r"-run[ =]+('([^']+)'|\"([^\"]+)\"|(\S+))", line)
        mp = re.search(r"(\./[\w/\.\-]+)", line)
        if not mr or not mp:
            continue
        pat = mr.group(2) or mr.group(3) or mr.group(4)
        pkg = mp.group(1).rstrip("`.,;)")
        mc = re.search(r"cd\s+(?:\S*/)?(v2|execution)\b", line)
        if mc:
            mod = mc.group(1)
        elif pkg.startswith("./pkg"):
            mod = "v2"
        else:
            mod = "execution"
        break
    if not pat:
        print("cannot find demo command in", md)
        os.makedirs("/tmp/vs/results", exist_ok=True)
        json.dump({"property": pid, "change": int(n), "status": "rejected: no demo command recognised in the write-up"}, open(f"/tmp/vs/results/{pid}-{file_n}.json", "w"))
        return 2
    demos = sorted(glob.glob(f"{out}/change{n}_demo*_test.go"))
    # only the demo files whose package matches the target dir are dropped in (e2e variants name another dir in the md)
    wt = f"/tmp/vs/{pid}-{file_n}"
    shutil.rmtree(wt, ignore_errors=True)
    os.makedirs("/tmp/vs", exist_ok=True)
    sh(f"git -C /repo worktree prune")
    rc, o = sh(f"git -C /repo worktree add -q --detach {wt} HEAD")
    if rc != 0:
        print(o); return 2
    meta = {"property": pid, "change": int(file_n), "source": f"sub-agent seed-{pid} of {seed_dir} (given only the property text and a scratch worktree)",
            "repo_head": sh("git -C /repo rev-parse --short HEAD")[1].strip(), "demo_cmd": f"cd {mod} && go test -count=1 -run '{pat}' {pkg}",
            "demo_files": [os.path.basename(d) for d in demos]}
    try:
        rc, o = sh(f"git apply --check {diff} && git apply {diff}", cwd=wt)
        if rc != 0:
            meta["status"] = "rejected: patch does not apply to current /repo HEAD"; meta["log"] = o[-800:]
            return finish(pid, n, meta, None, None, None)
        rc1, o1 = sh("go build ./pkg/... && go vet ./pkg/... >/dev/null 2>&1; go build ./pkg/...", cwd=f"{wt}/v2")
        rc2, o2 = sh("go build ./...", cwd=f"{wt}/execution")
        if rc1 != 0 or rc2 != 0:
            meta["status"] = "rejected: does not compile"; meta["log"] = (o1 + o2)[-800:]
            return finish(pid, n, meta, None, None, None)
        suites = {}
        for m_ in ("v2", "execution"):
            t0 = time.time()
            rc, o = sh("go test -vet=off -count=1 -timeout 25m ./... 2>&1 | grep -v 'no test files'", cwd=f"{wt}/{m_}")
            failed = re.findall(r"^FAIL\s+(github\S+)", o, re.M)
            retried = {}
            for fp in failed:
                rel = fp.split("/graphql-go-tools/" + ("v2/" if m_ == "v2" else "execution/"))[-1]
                rcr, orr = sh(f"go test -vet=off -count=1 ./{rel}", cwd=f"{wt}/{m_}")
                retried[fp] = "ok on retry" if rcr == 0 else "FAIL again: " + orr[-400:]
            suites[m_] = {"failed_first_run": failed, "retry": retried, "wall_s": round(time.time() - t0)}
        meta["existing_tests"] = suites
        still = [k for s in suites.values() for k, v in s["retry"].items() if not v.startswith("ok")]
        if still:
            meta["status"] = "rejected: existing tests fail with the change: " + ", ".join(still)
            return finish(pid, n, meta, None, None, None)
        # demo with the change
        target = f"{wt}/{mod}/{pkg[2:]}"
        used = []
        for d in demos:
            pkgname = re.search(r"^package\s+(\w+)", open(d).read(), re.M).group(1)
            # drop in only if the directory's package name matches
            existing = [f for f in glob.glob(f"{target}/*.go")]
            names = set(re.search(r"^package\s+(\w+)", open(f).read(), re.M).group(1) for f in existing[:40] if re.search(r"^package\s+(\w+)", open(f).read(), re.M))
            if pkgname in names or any(pkgname == x + "_test" for x in names) or any(x == pkgname + "_test" for x in names):
                shutil.copy(d, target); used.append(os.path.basename(d))
        meta["demo_files_used"] = used
        rcw, ow = sh(f"go test -vet=off -count=1 -timeout 10m -run '{pat}' {pkg}", cwd=f"{wt}/{mod}", timeout=900)
        sh(f"git apply -R {diff}", cwd=wt)
        rco, oo = sh(f"go test -vet=off -count=1 -timeout 10m -run '{pat}' {pkg}", cwd=f"{wt}/{mod}", timeout=900)
        meta["demo_with_change"] = "FAIL (as required)" if rcw != 0 else "passes (NOT a demonstration)"
        meta["demo_without_change"] = "ok (as required)" if rco == 0 else "FAILS on the unchanged tree"
        meta["demo_with_change_tail"] = ow[-600:]
        if rcw != 0 and rco == 0 and "no tests to run" not in oo:
            meta["status"] = "confirmed"
        else:
            meta["status"] = "rejected: demonstration does not discriminate"
            meta["demo_without_change_tail"] = oo[-400:]
        return finish(pid, n, meta, diff, demos, md)
    finally:
        sh(f"git -C /repo worktree remove --force {wt}")
        shutil.rmtree(wt, ignore_errors=True)

def finish(pid, n, meta, diff, demos, md):
    file_n = str(meta.get("change", n))
    dst = f"/verif/seeded/{pid}-{file_n}"
    if meta.get("status") == "confirmed":
        os.makedirs(dst, exist_ok=True)
        shutil.copy(diff, f"{dst}/patch.diff")
        for d in demos:
            shutil.copy(d, dst)
        if md and os.path.exists(md):
            shutil.copy(md, f"{dst}/notes.md")
        json.dump(meta, open(f"{dst}/meta.json", "w"), indent=1)
    os.makedirs("/tmp/vs/results", exist_ok=True)
    json.dump(meta, open(f"/tmp/vs/results/{pid}-{file_n}.json", "w"), indent=1)
    print(pid, n, meta.get("status"))
    return 0

if __name__ == "__main__":
    sys.exit(main())
