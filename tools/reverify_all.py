#!/usr/bin/env python3
"""Re-confirms the demonstration of every kept seed against the current /repo head: for each /verif/seeded/<id> the demo
passes on the unchanged head and fails with the patch applied. Fix commits in /repo can neutralise a seed whose patch still
applies; this is the sweep that notices. Uses N scratch worktrees under /tmp (removed at the end); writes
meta["demo_at_head"] = {repo_head, without_change_passes, with_change_fails}. Usage: reverify_all.py [N=4] [id…]"""
import json, os, re, shutil, subprocess, sys, glob
from concurrent.futures import ThreadPoolExecutor
import queue
def sh(c, cwd=None, timeout=3000):
    p = subprocess.run(c, shell=True, cwd=cwd, stdout=subprocess.PIPE, stderr=subprocess.STDOUT, text=True, timeout=timeout)
    return p.returncode, p.stdout
args = sys.argv[1:]
N = int(args[0]) if args and args[0].isdigit() else 4
ids = [a for a in args if not a.isdigit()] or sorted(os.path.basename(os.path.dirname(f)) for f in glob.glob("/verif/seeded/*/meta.json"))
head = subprocess.check_output("git -C /repo log --format=%h -1", shell=True, text=True).strip()
wts = queue.Queue()
for i in range(N):
    wt = f"/tmp/reverify-all-{i}"
    sh(f"git -C /repo worktree remove --force {wt}"); shutil.rmtree(wt, ignore_errors=True)
    rc, out = sh(f"git -C /repo worktree add --detach {wt} HEAD"); assert rc == 0, out
    wts.put(wt)
def one(sid):
    d = f"/verif/seeded/{sid}"
    meta = json.load(open(f"{d}/meta.json"))
    wt = wts.get()
    try:
        m = re.match(r"cd (\S+) && (go test .*?) (\./\S+)\s*$", meta["demo_cmd"])
        mod, cmd, pkg = m.group(1), m.group(2), m.group(3)
        pkgdir = os.path.join(wt, mod, pkg.rstrip('/'))
        copied = []
        for f in meta.get("demo_files_used", meta.get("demo_files", [])):
            shutil.copy(os.path.join(d, os.path.basename(f)), pkgdir); copied.append(os.path.join(pkgdir, os.path.basename(f)))
        rc0, o0 = sh(f"{cmd} {pkg}", cwd=os.path.join(wt, mod))
        rc, o = sh(f"git apply {d}/patch.diff", cwd=wt)
        if rc != 0:
            res = {"repo_head": head, "patch_applies": False}
        else:
            rc1, o1 = sh(f"{cmd} {pkg}", cwd=os.path.join(wt, mod))
            res = {"repo_head": head, "patch_applies": True, "without_change_passes": rc0 == 0, "with_change_fails": rc1 != 0,
                   "with_change_builds": "[build failed]" not in o1 and "[setup failed]" not in o1}
            if rc0 != 0: res["without_change_tail"] = o0[-600:]
        sh("git checkout -- . && git clean -fdq", cwd=wt)
        for c in copied:
            if os.path.exists(c): os.remove(c)
        meta["demo_at_head"] = res
        json.dump(meta, open(f"{d}/meta.json", "w"), indent=1)
        ok = res.get("patch_applies") and res.get("without_change_passes") and res.get("with_change_fails") and res.get("with_change_builds")
        print(sid, "ok" if ok else "NOT-CONFIRMED", res if not ok else "", flush=True)
        return sid, ok
    finally:
        wts.put(wt)
try:
    with ThreadPoolExecutor(N) as ex:
        results = list(ex.map(one, ids))
    bad = [s for s, ok in results if not ok]
    print(f"{len(results) - len(bad)}/{len(results)} demonstrations confirmed at {head}; not confirmed: {bad}")
finally:
    while not wts.empty():
        wt = wts.get()
        sh(f"git -C /repo worktree remove --force {wt}"); shutil.rmtree(wt, ignore_errors=True)
