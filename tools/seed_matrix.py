#!/usr/bin/env python3
"""Runs every kept seeded change (/verif/seeded/<id>/patch.diff) against the registered quick check of its property.

For each seed: apply the patch to /repo's working tree (which must be clean), run `./run.sh <property> quick` with the
evidence redirected to a scratch root (so committed evidence always describes the unchanged tree), record the rules and
constructs that fired, and revert the patch. Results go into the seed's meta.json ("checker") and seeded/MATRIX.md.

usage: seed_matrix.py [<seed-id>...]
"""
import json, os, re, shutil, subprocess, sys, tempfile

VERIF = os.path.dirname(os.path.dirname(os.path.abspath(__file__)))
REPO = os.environ.get("VERIF_REPO", "/repo")
SEEDED = os.path.join(VERIF, "seeded")


def sh(cmd, cwd=None, env=None):
    return subprocess.run(cmd, shell=True, cwd=cwd, env=env, stdout=subprocess.PIPE, stderr=subprocess.STDOUT, text=True)


def needs_section(notes):
    """The paragraph of the sub-agent's notes that says what the change needs in order to manifest."""
    m = re.search(r"^#+\s*(?:\d+\.\s*)?(What it needs[^\n]*|Needs[^\n]*|Trigger[^\n]*|What (?:is )?need[^\n]*|Conditions[^\n]*)\n(.*?)(?=^#+\s|\Z)", notes, re.S | re.M | re.I)
    if m:
        return " ".join(m.group(2).split())[:1200]
    return ""


def main():
    ids = sys.argv[1:] or sorted(d for d in os.listdir(SEEDED) if os.path.isdir(os.path.join(SEEDED, d)))
    if sh("git diff --quiet", cwd=REPO).returncode != 0:
        print("repo working tree is dirty; refusing"); sys.exit(2)
    scratch = tempfile.mkdtemp(prefix="verif-seedmatrix-")
    shutil.copy(os.path.join(VERIF, "known_findings.json"), scratch)
    rows = []
    try:
        for sid in ids:
            d = os.path.join(SEEDED, sid)
            patch = os.path.join(d, "patch.diff")
            meta_p = os.path.join(d, "meta.json")
            meta = json.load(open(meta_p))
            prop = meta["property"]
            r = sh(f"git apply {patch}", cwd=REPO)
            if r.returncode != 0:
                meta["checker"] = {"status": "patch does not apply to the current /repo head", "detail": r.stdout[-400:]}
                json.dump(meta, open(meta_p, "w"), indent=1)
                rows.append((sid, prop, "n/a", "patch does not apply"))
                continue
            others = {}
            try:
                env = dict(os.environ, VERIF_ROOT=scratch)
                out = sh(f"./run.sh {prop} quick", cwd=VERIF, env=env)
                own_caught = out.returncode == 1 and any(l.startswith("VIOLATION ") for l in out.stdout.splitlines())
                if not own_caught:
                    # a change can break several properties: see whether the check of another property reports it
                    for i in range(1, 21):
                        other = "C%02d" % i
                        if other == prop:
                            continue
                        o2 = sh(f"./run.sh {other} quick", cwd=VERIF, env=env)
                        if o2.returncode == 1 and any(l.startswith("VIOLATION ") for l in o2.stdout.splitlines()):
                            fired = []
                            for line in o2.stdout.splitlines():
                                m = re.match(r"\s+FAIL (\S+) (\S+) \[([^\]]+)\] (.*)", line)
                                if m:
                                    fired.append(m.group(2) + " " + m.group(3))
                            others[other] = sorted(set(fired))
            finally:
                sh(f"git apply -R {patch}", cwd=REPO)
            fails = []
            for line in out.stdout.splitlines():
                m = re.match(r"\s+FAIL (\S+) (\S+) \[([^\]]+)\] (.*)", line)
                if m:
                    fails.append({"rule": m.group(2), "construct": m.group(3), "pos": m.group(1), "message": m.group(4)[:300]})
            violation = any(l.startswith("VIOLATION ") for l in out.stdout.splitlines())
            checkerr = any(l.startswith("CHECK-ERROR") for l in out.stdout.splitlines())
            detected = violation and out.returncode == 1
            meta["checker"] = {
                "command": f"git -C /repo apply seeded/{sid}/patch.diff && ./run.sh {prop} quick   (then git -C /repo apply -R …)",
                "exit_code": out.returncode,
                "detected": detected,
                "fired": fails,
            }
            if others:
                meta["checker"]["detected_by_other_checks"] = others
            if checkerr:
                meta["checker"]["check_error"] = [l for l in out.stdout.splitlines() if l.startswith("CHECK-ERROR")][:3]
            if "needs_to_manifest" not in meta or not meta["needs_to_manifest"]:
                notes_p = os.path.join(d, "notes.md")
                if os.path.exists(notes_p):
                    meta["needs_to_manifest"] = needs_section(open(notes_p).read())
            if "what_i_ran" not in meta:
                meta["what_i_ran"] = ("tools/verify_seed.py in a fresh scratch git worktree of /repo at " + meta.get("repo_head", "?") + ": applied patch.diff; built v2 ./pkg/... and execution ./...; "
                                      "ran the full test suites of both modules (failures re-run to rule out flakes) — all pass with the change; ran the demonstration (" + meta.get("demo_cmd", "?") +
                                      ") with the change (fails) and, after reverting the change, without it (passes); removed the worktree")
            json.dump(meta, open(meta_p, "w"), indent=1)
            if detected:
                res, why = "caught", "; ".join(sorted({f["rule"] + " " + f["construct"] for f in fails}))[:400]
            elif others:
                res, why = "caught by " + ", ".join(sorted(others)), "; ".join(x for k in sorted(others) for x in others[k])[:400]
            else:
                res, why = ("CHECK-ERROR" if checkerr else "missed"), ""
            rows.append((sid, prop, res, why))
            print(rows[-1])
    finally:
        shutil.rmtree(scratch, ignore_errors=True)
        if sh("git diff --quiet", cwd=REPO).returncode != 0:
            print("WARNING: /repo left dirty")
    if not sys.argv[1:]:
        with open(os.path.join(SEEDED, "MATRIX.md"), "w") as f:
            f.write("# Seeded changes vs. registered quick checks\n\nGenerated by tools/seed_matrix.py (applies each patch to /repo, runs the property's quick check with evidence redirected, reverts).\n\n")
            f.write("| seed | property | result | rule and construct reported |\n|---|---|---|---|\n")
            for sid, prop, res, why in rows:
                f.write(f"| {sid} | {prop} | {res} | {why} |\n")
            c = sum(1 for r in rows if r[2] == "caught")
            c2 = sum(1 for r in rows if r[2].startswith("caught by"))
            f.write(f"\n{c} of {len(rows)} caught by the check of their own property, {c2} more by the check of another property.\n")


if __name__ == "__main__":
    main()
