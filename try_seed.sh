#!/bin/sh
# usage: try_seed.sh <patch> <property>...   — applies the patch to /repo, runs the quick checks, reverts.
patch="$1"; shift
cd /repo || exit 2
git diff --quiet || { echo "repo dirty"; exit 2; }
git apply "$patch" || { echo "patch does not apply"; exit 2; }
cp /verif/known_findings.json /tmp/verif-scratch/ 2>/dev/null
for p in "$@"; do
  VERIF_ROOT=/tmp/verif-scratch /verif/run.sh "$p" quick 2>&1 | grep -E "^   FAIL|^VIOLATION|^OK|^CHECK-ERROR" | cut -c1-260
done
git checkout -- . ; git status --short | head -3
